"""C18 translator plug-in (PRNG part): regenerate coq/theories/Gen/PrngFrag.v from the CURRENT text of
/repo/pyrtl/rtllib/prngs.py (AST only; nothing is imported or executed).

Each of prng_lfsr / prng_xoroshiro128 / csprng_trivium is elaborated symbolically, statement by
statement, into ONE Gallina step function
    g_<name>_step params (registers) (load, req, seed) : (next registers) * (outputs)
in which every construct of the source is mirrored:
  * integer parameters (`gen_cycles = int(ceil(bitwidth / 64))`, `init_cycles = 1152 // bits_per_cycle`,
    `counter_bitwidth = int(ceil(log(max(..), 2)))`, `127 if bitwidth < 127 else bitwidth`, ...);
  * Register / WireVector declarations with their widths (generator-tuple form included);
  * wire expressions: & | ^ with Python's precedence, ~ (1-bit operands only), + , comparisons,
    bit selects `w[65 - i]`, slices `w[:n]`, `w[n:]`, `w[-n:]`, pyrtl.concat (also with *list),
    pyrtl.Const (int / Verilog-string), libutils._shifted_reg_next (un-truncated left shift, right
    slice), adders.kogge_stone (integer addition -- adder correctness is property C13);
  * `for i in range(n)` loops that append 1-bit wires to lists, and loops carrying one variable;
  * the `with pyrtl.conditional_assignment:` block: nested `with <cond>:` chains become per-register
    priority if/else chains, every `.next |=` truncated to the register width, an unassigned
    register keeps its value;
  * `<<=` (truncating), the ready expression and the returned slices.
Anything outside this subset raises Untranslatable (tie broken, never skipped).
Lib/PrngGenProofs.v proves the regenerated step functions equal to the hand-written structure
model of Lib/PrngModel.v, over which the property theorems are stated."""
import ast
import os

import pyfrag
from pyfrag import Untranslatable
from genfrag_C18 import _register


def fail(node, why):
    raise Untranslatable('prngs.py: %s at line %s: %s' % (why, getattr(node, 'lineno', '?'),
                                                            ast.dump(node)[:160] if isinstance(node, ast.AST) else node))


class V(object):
    """a translated value: text = Gallina Z expression; kind 'int' | 'wire' | 'list' | 'str';
    width = Gallina Z text or None (wires only); wlit = python int when the width is a literal"""
    def __init__(self, text, kind, width=None, wlit=None, items=None, sval=None):
        self.text, self.kind, self.width, self.wlit, self.items, self.sval = text, kind, width, wlit, items, sval


def wire(text, wlit=None, width=None):
    if wlit is not None:
        width = '%d' % wlit
    return V(text, 'wire', width, wlit)


def wmax(a, b):
    if a.wlit is not None and b.wlit is not None:
        m = max(a.wlit, b.wlit)
        return dict(wlit=m)
    if a.width is None or b.width is None:
        return dict(width=None)
    return dict(width='(Z.max %s %s)' % (a.width, b.width))


CMP = {ast.Eq: 'g_eq', ast.Lt: 'g_lt', ast.Gt: 'g_gt', ast.LtE: 'g_le', ast.GtE: 'g_ge'}
ICMP = {ast.Eq: 'Z.eqb', ast.Lt: 'Z.ltb', ast.Gt: 'Z.gtb', ast.LtE: 'Z.leb', ast.GtE: 'Z.geb'}


class Elab(object):
    def __init__(self, fn):
        self.fn = fn
        self.env = {}          # python name -> V
        self.lets = []         # (coq name, text)
        self.regs = []         # (python name, width text) in declaration order
        self.wirevectors = {}  # declared WireVector name -> width V (assigned later by <<=)
        self.aliases = {}      # local import aliases: name -> dotted origin
        self.next = None       # reg name -> text (from the conditional block)
        self.outputs = None
        self.guards = []       # `if <int cond>: raise` conditions (text of the REJECT condition)
        self.used = set()

    # ---------------------------------------------------------------- names
    def cq(self, name):
        return 'v_' + name.lstrip('_') + ('_u' if name.startswith('_') else '')

    def bind(self, name, v, emit=True):
        """let-bind a python variable"""
        c = self.cq(name)
        n = 0
        base = c
        while c in self.used:
            n += 1
            c = '%s_%d' % (base, n)
        self.used.add(c)
        if emit:
            self.lets.append((c, v.text))
            v = V(c, v.kind, v.width, v.wlit, v.items, v.sval)
        self.env[name] = v
        return v

    # ---------------------------------------------------------------- integer / wire expressions
    def lit(self, n):
        if isinstance(n, ast.Constant) and isinstance(n.value, int) and not isinstance(n.value, bool):
            return n.value
        if isinstance(n, ast.UnaryOp) and isinstance(n.op, ast.USub):
            v = self.lit(n.operand)
            return None if v is None else -v
        return None

    def ex(self, n):
        m = getattr(self, 'ex_' + type(n).__name__, None)
        if m is None:
            fail(n, 'unsupported expression')
        return m(n)

    def ex_Constant(self, n):
        if isinstance(n.value, bool) or not isinstance(n.value, (int, str)):
            fail(n, 'unsupported constant')
        if isinstance(n.value, str):
            return V(repr(n.value), 'str', sval=n.value)
        return V('%d' % n.value if n.value >= 0 else '(%d)' % n.value, 'int')

    def ex_Name(self, n):
        if n.id not in self.env:
            fail(n, 'unknown name %r' % n.id)
        return self.env[n.id]

    def ex_UnaryOp(self, n):
        a = self.ex(n.operand)
        if isinstance(n.op, ast.USub) and a.kind == 'int':
            return V('(- %s)' % a.text, 'int')
        if isinstance(n.op, ast.Invert) and a.kind == 'wire':
            if a.wlit != 1:
                fail(n, '~ is only translated for 1-bit operands')
            return wire('(g_not1 %s)' % a.text, 1)
        fail(n, 'unsupported unary operator')

    def ex_BinOp(self, n):
        a, b = self.ex(n.left), self.ex(n.right)
        op = type(n.op)
        if a.kind == 'int' and b.kind == 'int':
            f = {ast.Add: 'Z.add', ast.Sub: 'Z.sub', ast.Mult: 'Z.mul', ast.FloorDiv: 'Z.div'}.get(op)
            if f is None:
                fail(n, 'unsupported integer operator')
            return V('(%s %s %s)' % (f, a.text, b.text), 'int')
        if 'wire' in (a.kind, b.kind) and {a.kind, b.kind} <= {'wire', 'int'}:
            if op in (ast.BitXor, ast.BitOr, ast.BitAnd):
                if a.kind != 'wire' or b.kind != 'wire':
                    fail(n, 'bitwise operator between a wire and a python int')
                f = {ast.BitXor: 'Z.lxor', ast.BitOr: 'Z.lor', ast.BitAnd: 'Z.land'}[op]
                return wire('(%s %s %s)' % (f, a.text, b.text), **wmax(a, b))
            if op is ast.Add:
                w = a if a.kind == 'wire' else b
                return wire('(Z.add %s %s)' % (a.text, b.text),
                            **(dict(wlit=w.wlit + 1) if w.wlit is not None and 'int' in (a.kind, b.kind) else dict(width=None)))
        fail(n, 'unsupported binary operator')

    def ex_Compare(self, n):
        if len(n.ops) != 1:
            fail(n, 'chained comparison')
        a, b = self.ex(n.left), self.ex(n.comparators[0])
        op = type(n.ops[0])
        if a.kind == 'int' and b.kind == 'int':
            if op is ast.NotEq:
                return V('(negb (Z.eqb %s %s))' % (a.text, b.text), 'bool')
            if op not in ICMP:
                fail(n, 'unsupported comparison')
            return V('(%s %s %s)' % (ICMP[op], a.text, b.text), 'bool')
        if a.kind == 'wire' and b.kind in ('wire', 'int'):
            if op not in CMP:
                fail(n, 'unsupported wire comparison')
            return wire('(%s %s %s)' % (CMP[op], a.text, b.text), 1)
        fail(n, 'unsupported comparison operands')

    def ex_IfExp(self, n):
        c = self.ex(n.test)
        a, b = self.ex(n.body), self.ex(n.orelse)
        if c.kind != 'bool' or a.kind != 'int' or b.kind != 'int':
            fail(n, 'conditional expression is only translated for integer parameters')
        return V('(if %s then %s else %s)' % (c.text, a.text, b.text), 'int')

    def ex_Subscript(self, n):
        a = self.ex(n.value)
        if a.kind != 'wire':
            fail(n, 'subscript of a non-wire')
        s = n.slice
        if isinstance(s, ast.Index):  # py<3.9
            s = s.value
        if isinstance(s, ast.Slice):
            if s.step is not None:
                fail(n, 'slice step')
            lo = None if s.lower is None else self.ex(s.lower)
            hi = None if s.upper is None else self.ex(s.upper)
            for b in (lo, hi):
                if b is not None and b.kind != 'int':
                    fail(n, 'slice bound is not an integer parameter')
            if lo is None and hi is not None and self.lit(s.upper) != 0 and not self._neg(s.upper):
                return wire('(low %s %s)' % (hi.text, a.text), wlit=self.lit(s.upper), width=hi.text)
            if hi is None and lo is not None:
                if self._neg(s.lower):          # w[-n:] = the n most significant bits
                    if a.width is None:
                        fail(n, 'w[-n:] needs the width of w')
                    cnt = self.ex(s.lower.operand)
                    return wire('(Z.shiftr %s (Z.sub %s %s))' % (a.text, a.width, cnt.text), wlit=self.lit(s.lower.operand), width=cnt.text)
                k = self.lit(s.lower)
                wl = a.wlit - k if (a.wlit is not None and k is not None) else None
                return wire('(Z.shiftr %s %s)' % (a.text, lo.text), wlit=wl,
                            width=None if a.width is None else '(Z.sub %s %s)' % (a.width, lo.text))
            fail(n, 'unsupported slice form')
        i = self.ex(s)
        if i.kind != 'int':
            fail(n, 'bit index is not an integer expression')
        return wire('(g_bit %s %s)' % (a.text, i.text), 1)

    def _neg(self, node):
        return isinstance(node, ast.UnaryOp) and isinstance(node.op, ast.USub)

    def dotted(self, f):
        if isinstance(f, ast.Name):
            return self.aliases.get(f.id, f.id)
        if isinstance(f, ast.Attribute):
            return self.dotted(f.value) + '.' + f.attr
        return '?'

    def ex_Call(self, n):
        name = self.dotted(n.func)
        if n.keywords:
            fail(n, 'keyword arguments')
        args = n.args
        if name == 'int' and len(args) == 1:
            a = args[0]
            if isinstance(a, ast.Call) and self.dotted(a.func) in ('ceil', 'math.ceil') and len(a.args) == 1:
                inner = a.args[0]
                if isinstance(inner, ast.BinOp) and isinstance(inner.op, ast.Div):
                    x, y = self.ex(inner.left), self.ex(inner.right)
                    if x.kind == y.kind == 'int':
                        return V('(g_ceil_div %s %s)' % (x.text, y.text), 'int')
                if isinstance(inner, ast.Call) and self.dotted(inner.func) in ('log', 'math.log') and len(inner.args) == 2 \
                        and self.lit(inner.args[1]) == 2:
                    x = self.ex(inner.args[0])
                    if x.kind == 'int':
                        return V('(Z.log2_up %s)' % x.text, 'int')
            fail(n, 'int(...) is only translated for int(ceil(a / b)) and int(ceil(log(x, 2)))')
        if name == 'max' and len(args) == 2:
            x, y = self.ex(args[0]), self.ex(args[1])
            if x.kind == y.kind == 'int':
                return V('(Z.max %s %s)' % (x.text, y.text), 'int')
        if name == 'pyrtl.as_wires' and len(args) == 2:
            x, w = self.ex(args[0]), self.lit(args[1])
            if x.kind == 'wire' and w is not None:
                return wire(x.text, w)
        if name == 'pyrtl.Const':
            if len(args) == 1 and isinstance(args[0], ast.Constant) and isinstance(args[0].value, str):
                import re
                m = re.match(r"^(\d+)'b([01]+)$", args[0].value)
                if not m or len(m.group(2)) > int(m.group(1)):
                    fail(n, 'Const string is not <w>\'b<bits>')
                return wire('%d' % int(m.group(2), 2), int(m.group(1)))
            if len(args) == 2 and self.lit(args[0]) is not None and self.lit(args[1]) is not None:
                v, w = self.lit(args[0]), self.lit(args[1])
                if not 0 <= v < (1 << w):
                    fail(n, 'Const value does not fit')
                return wire('%d' % v, w)
            if len(args) == 1:
                x = self.ex(args[0])
                if x.kind == 'int':      # Const(k): used for state encodings, compared and assigned only
                    return V(x.text, 'int')
            fail(n, 'unsupported Const form')
        if name == 'pyrtl.concat':
            if not args:
                fail(n, 'empty concat')
            acc = self.ex(args[0])
            if acc.kind != 'wire':
                fail(n, 'concat of a non-wire')
            text, known = acc.text, acc
            for a in args[1:]:
                if isinstance(a, ast.Starred):
                    lst = self.ex(a.value)
                    if lst.kind != 'list':
                        fail(n, 'starred concat argument is not a list built by the loop')
                    text = '(g_concat_bits %s %s)' % (text, lst.text)
                    known = wire(text, width=None)
                else:
                    x = self.ex(a)
                    if x.kind != 'wire' or x.width is None:
                        fail(n, 'concat argument of unknown width')
                    text = '(Z.add (Z.shiftl %s %s) %s)' % (text, x.width, x.text)
                    wl = known.wlit + x.wlit if (known.wlit is not None and x.wlit is not None) else None
                    known = wire(text, wlit=wl, width=None if (known.width is None) else '(Z.add %s %s)' % (known.width, x.width))
            return wire(text, wlit=known.wlit, width=known.width)
        if name == 'pyrtl.rtllib.libutils._shifted_reg_next' and len(args) == 3:
            x, d, k = self.ex(args[0]), args[1], self.lit(args[2])
            if x.kind != 'wire' or x.wlit is None or k is None or not isinstance(d, ast.Constant) or d.value not in ('l', 'r'):
                fail(n, 'unsupported _shifted_reg_next call')
            if not 0 <= k < x.wlit:
                fail(n, '_shifted_reg_next: shift amount not below the register width (returns 0 there)')
            if d.value == 'l':      # concat(reg, Const(0, k)): NOT truncated
                return wire('(Z.shiftl %s %d)' % (x.text, k), x.wlit + k)
            return wire('(Z.shiftr %s %d)' % (x.text, k), x.wlit - k)          # reg[k:]
        if name == 'pyrtl.rtllib.adders.kogge_stone' and len(args) == 2:
            x, y = self.ex(args[0]), self.ex(args[1])
            if x.kind == y.kind == 'wire' and x.wlit is not None and y.wlit is not None:
                return wire('(Z.add %s %s)' % (x.text, y.text), max(x.wlit, y.wlit) + 1)
        fail(n, 'unsupported call %s' % name)

    # ---------------------------------------------------------------- statements
    def declare_reg(self, name, call):
        """pyrtl.Register(width [, 'name'])"""
        if not (isinstance(call, ast.Call) and self.dotted(call.func) == 'pyrtl.Register' and 1 <= len(call.args) <= 2
                and not call.keywords):
            fail(call, 'not a Register declaration')
        w = self.ex(call.args[0])
        if w.kind != 'int':
            fail(call, 'register width is not an integer parameter')
        c = self.cq(name)
        self.used.add(c)
        self.regs.append((name, w.text))
        self.env[name] = wire(c, wlit=self.lit(call.args[0]), width=w.text)

    def gen_tuple(self, st):
        """a, b = (<expr> for i in range(n))"""
        tg, v = st.targets[0], st.value
        if not (isinstance(tg, ast.Tuple) and isinstance(v, ast.GeneratorExp) and len(v.generators) == 1
                and isinstance(v.generators[0].iter, ast.Call) and self.dotted(v.generators[0].iter.func) == 'range'
                and len(v.generators[0].iter.args) == 1 and not v.generators[0].ifs
                and self.lit(v.generators[0].iter.args[0]) == len(tg.elts)
                and isinstance(v.generators[0].target, ast.Name)):
            fail(st, 'unsupported tuple assignment')
        var = v.generators[0].target.id
        names = [e.id for e in tg.elts if isinstance(e, ast.Name)]
        if len(names) != len(tg.elts):
            fail(st, 'tuple target is not plain names')
        elt = v.elt
        for k, nm in enumerate(names):
            if isinstance(elt, ast.Call) and self.dotted(elt.func) == 'pyrtl.Register':
                self.declare_reg(nm, elt)
            elif isinstance(elt, ast.List) and not elt.elts:
                self.env[nm] = V(None, 'list', items=[])
            elif isinstance(elt, ast.Call) and self.dotted(elt.func) == 'pyrtl.Const' and len(elt.args) == 1 \
                    and isinstance(elt.args[0], ast.Name) and elt.args[0].id == var:
                self.env[nm] = V('%d' % k, 'int')
            else:
                fail(st, 'unsupported generator element')

    def stmt(self, st):
        if isinstance(st, ast.Expr) and isinstance(st.value, ast.Constant) and isinstance(st.value.value, str):
            return                                                     # docstring
        if isinstance(st, ast.ImportFrom):
            for a in st.names:
                self.aliases[a.asname or a.name] = ('%s.%s' % (st.module, a.name)) if st.module not in ('math',) else a.name
            return
        if isinstance(st, ast.If):
            return self.stmt_if(st)
        if isinstance(st, ast.Assign) and len(st.targets) == 1:
            return self.stmt_assign(st)
        if isinstance(st, ast.AugAssign) and isinstance(st.op, ast.LShift) and isinstance(st.target, ast.Name):
            nm = st.target.id
            if nm not in self.wirevectors:
                fail(st, '<<= to something that is not a declared WireVector')
            w = self.wirevectors.pop(nm)
            v = self.ex(st.value)
            if v.kind != 'wire':
                fail(st, '<<= of a non-wire')
            self.bind(nm, wire('(low %s %s)' % (w.text, v.text), wlit=w.wlit, width=w.text))
            return
        if isinstance(st, ast.For):
            return self.stmt_for(st)
        if isinstance(st, ast.With):
            return self.stmt_with(st)
        if isinstance(st, ast.Return):
            return self.stmt_return(st)
        fail(st, 'unsupported statement')

    def stmt_if(self, st):
        t = st.test
        # `if seed is None: <self-seeding>`: the harness always passes a seed wire
        if isinstance(t, ast.Compare) and isinstance(t.left, ast.Name) and t.left.id == 'seed' and len(t.ops) == 1 \
                and isinstance(t.ops[0], ast.Is) and isinstance(t.comparators[0], ast.Constant) \
                and t.comparators[0].value is None and not st.orelse:
            return
        # `if <integer condition>: raise ...`
        if len(st.body) == 1 and isinstance(st.body[0], ast.Raise) and not st.orelse:
            c = self.ex(t)
            if c.kind != 'bool':
                fail(st, 'guard condition is not an integer comparison')
            self.guards.append(c.text)
            return
        fail(st, 'unsupported if statement')

    def stmt_assign(self, st):
        tg, v = st.targets[0], st.value
        if isinstance(tg, ast.Tuple):
            return self.gen_tuple(st)
        if not isinstance(tg, ast.Name):
            fail(st, 'unsupported assignment target')
        nm = tg.id
        if isinstance(v, ast.Call) and self.dotted(v.func) == 'pyrtl.Register':
            return self.declare_reg(nm, v)
        if isinstance(v, ast.Call) and self.dotted(v.func) == 'pyrtl.WireVector' and len(v.args) == 1 and not v.keywords:
            w = self.ex(v.args[0])
            if w.kind != 'int':
                fail(st, 'WireVector width')
            self.wirevectors[nm] = V(w.text, 'int', wlit=self.lit(v.args[0]))
            return
        x = self.ex(v)
        if x.kind in ('int', 'wire'):
            self.bind(nm, x)
            return
        fail(st, 'unsupported assignment value')

    def stmt_for(self, st):
        if not (isinstance(st.target, ast.Name) and isinstance(st.iter, ast.Call) and self.dotted(st.iter.func) == 'range'
                and len(st.iter.args) == 1 and not st.orelse):
            fail(st, 'unsupported for loop')
        cnt = self.ex(st.iter.args[0])
        if cnt.kind != 'int':
            fail(st, 'loop count is not an integer parameter')
        ivar = st.target.id
        # (1) a loop carrying exactly one wire variable: x = f(x)
        if len(st.body) == 1 and isinstance(st.body[0], ast.Assign) and isinstance(st.body[0].targets[0], ast.Name) \
                and st.body[0].targets[0].id in self.env and self.env[st.body[0].targets[0].id].kind == 'wire':
            nm = st.body[0].targets[0].id
            saved = self.env[nm]
            c = self.cq(nm) + '_it'
            self.env[nm] = wire(c, width=None)
            self.env[ivar] = V(self.cq(ivar), 'int')
            body = self.ex(st.body[0].value)
            del self.env[ivar]
            if self.cq(ivar) in body.text.split():
                fail(st, 'carried loop whose body depends on the loop index')
            self.env[nm] = saved
            self.bind(nm, wire('(g_iter (Z.to_nat %s) (fun %s : Z => %s) %s)' % (cnt.text, c, body.text, saved.text), width=None))
            return
        # (2) a loop that binds local wires and appends 1-bit wires to lists
        self.env[ivar] = V(self.cq(ivar), 'int')
        local_lets, local_names, appended = [], [], {}
        for b in st.body:
            if isinstance(b, ast.Assign) and len(b.targets) == 1 and isinstance(b.targets[0], ast.Name):
                nm = b.targets[0].id
                if nm in self.env and nm not in local_names:
                    fail(b, 'loop assigns a variable of the enclosing scope')
                x = self.ex(b.value)
                if x.kind != 'wire':
                    fail(b, 'loop-local value is not a wire')
                c = self.cq(nm)
                local_lets.append((c, x.text))
                local_names.append(nm)
                self.env[nm] = wire(c, wlit=x.wlit, width=x.width)
            elif isinstance(b, ast.Expr) and isinstance(b.value, ast.Call) and isinstance(b.value.func, ast.Attribute) \
                    and b.value.func.attr == 'append' and isinstance(b.value.func.value, ast.Name) and len(b.value.args) == 1:
                ln = b.value.func.value.id
                if ln not in self.env or self.env[ln].kind != 'list' or self.env[ln].items != [] or ln in appended:
                    fail(b, 'append to something that is not a fresh empty list (once per iteration)')
                x = self.ex(b.value.args[0])
                if x.kind != 'wire' or x.wlit != 1:
                    fail(b, 'only 1-bit wires may be appended')
                appended[ln] = x.text
            else:
                fail(b, 'unsupported statement in loop body')
        for nm in local_names + [ivar]:
            del self.env[nm]
        lets = ''.join('let %s := %s in ' % l for l in local_lets)
        for ln, text in appended.items():
            self.bind(ln, V('(map (fun %s : Z => %s%s) (g_range %s))' % (self.cq(ivar), lets, text, cnt.text), 'list', items=None))

    # -- conditional assignment
    def cond_tree(self, body):
        """list of statements of a `with` body -> (direct assignments {reg: text}, chain [(cond text|None, subtree)])"""
        direct, chain = {}, []
        for b in body:
            if isinstance(b, ast.With):
                if len(b.items) != 1 or b.items[0].optional_vars is not None:
                    fail(b, 'unsupported with statement')
                ce = b.items[0].context_expr
                if self.dotted(ce) == 'pyrtl.otherwise':
                    cond = None
                else:
                    c = self.ex(ce)
                    if c.kind != 'wire' or c.wlit != 1:
                        fail(b, 'condition is not a 1-bit wire')
                    cond = '(g_nz %s)' % c.text
                if chain and chain[-1][0] is None:
                    fail(b, 'with block after otherwise')
                chain.append((cond, self.cond_tree(b.body)))
            elif isinstance(b, ast.AugAssign) and isinstance(b.op, ast.BitOr) and isinstance(b.target, ast.Attribute) \
                    and b.target.attr == 'next' and isinstance(b.target.value, ast.Name):
                r = b.target.value.id
                if r not in [x[0] for x in self.regs]:
                    fail(b, '.next |= on something that is not a declared register')
                if r in direct:
                    fail(b, 'register assigned twice in one block')
                if chain:
                    fail(b, 'assignment after a nested with block (order-sensitive form not translated)')
                v = self.ex(b.value)
                if v.kind not in ('wire', 'int'):
                    fail(b, 'assigned value is not a wire or int')
                w = dict(self.regs)[r]
                direct[r] = '(low %s %s)' % (w, v.text)
            else:
                fail(b, 'unsupported statement inside conditional_assignment')
        return direct, chain

    def reg_next(self, r, tree, default):
        direct, chain = tree
        if r in direct:
            if any(self.mentions(r, sub) for _, sub in chain):
                fail(self.fn, 'register %s assigned both directly and in a nested block' % r)
            return direct[r]
        out = default
        for cond, sub in reversed(chain):
            inner = self.reg_next(r, sub, default)
            if cond is None:
                out = inner
            elif inner == out:
                pass
            else:
                out = '(if %s then %s else %s)' % (cond, inner, out)
        return out

    def mentions(self, r, tree):
        direct, chain = tree
        return r in direct or any(self.mentions(r, sub) for _, sub in chain)

    def stmt_with(self, st):
        if len(st.items) != 1 or self.dotted(st.items[0].context_expr) != 'pyrtl.conditional_assignment' or self.next is not None:
            fail(st, 'expected exactly one `with pyrtl.conditional_assignment:` block')
        tree = self.cond_tree(st.body)
        if tree[0]:
            fail(st, 'unconditional assignment inside conditional_assignment')
        self.next = {r: self.reg_next(r, tree, self.cq(r)) for r, _ in self.regs}

    def stmt_return(self, st):
        v = st.value
        elts = v.elts if isinstance(v, ast.Tuple) else [v]
        outs = [self.ex(e) for e in elts]
        if any(o.kind != 'wire' for o in outs):
            fail(st, 'returned value is not a wire')
        self.outputs = [o.text for o in outs]

    # ---------------------------------------------------------------- driver
    def run(self, params, wires_in):
        for p in params:
            self.used.add(self.cq(p))
            self.env[p] = V(self.cq(p), 'int')
        for nm, w in wires_in:
            self.used.add(self.cq(nm))
            self.env[nm] = wire(self.cq(nm), w)
        for st in self.fn.body:
            if self.outputs is not None:
                fail(st, 'statement after return')
            self.stmt(st)
        if self.next is None or self.outputs is None:
            fail(self.fn, 'no conditional_assignment block or no return')
        if self.wirevectors:
            fail(self.fn, 'WireVector declared but never assigned: %s' % sorted(self.wirevectors))


def tuple_pat(names):
    return "'(%s)" % ', '.join(names) if len(names) > 1 else names[0]


def emit(name, fn, params, seed_width, repo_rel):
    args = [a.arg for a in fn.args.args]
    want = params + ['load', 'req', 'seed']
    if args[:len(want)] != ['bitwidth', 'load', 'req', 'seed'] + params[1:]:
        # prng_lfsr(bitwidth, load, req, seed=None) / csprng_trivium(..., bits_per_cycle=64)
        fail(fn, 'unexpected signature %s' % args)
    e = Elab(fn)
    e.run(params, [('load', 1), ('req', 1), ('seed', seed_width)])
    regs = [e.cq(r) for r, _ in e.regs]
    ps = ' '.join('(%s : Z)' % e.cq(p) for p in params)
    out = ['(* %s: registers %s *)' % (fn.name, ', '.join('%s[%s]' % (r, w) for r, w in e.regs))]
    regty = ' * '.join(['Z'] * len(regs))
    outty = ' * '.join(['Z'] * len(e.outputs))
    out.append('Definition g_%s_step %s (regs : %s) (ins : Z * Z * Z) : (%s) * (%s) :=' % (name, ps, regty, regty, outty))
    out.append('  let %s := regs in' % tuple_pat(regs))
    out.append("  let '(v_load, v_req, v_seed) := ins in")
    for c, t in e.lets:
        out.append('  let %s := %s in' % (c, t))
    nx = ', '.join(e.next[r] for r, _ in e.regs)
    out.append('  ((%s),\n   (%s)).' % (nx.replace('), (', '),\n    ('), ', '.join(e.outputs)))
    out.append('(* parameter combinations the function rejects with PyrtlError *)')
    rej = ' || '.join(e.guards) if e.guards else 'false'
    out.append('Definition g_%s_rejects %s : bool := %s.' % (name, ps, rej))
    return '\n'.join(out) + '\n'


@_register('PrngFrag')
def gen_prng_frag(repo):
    tree = pyfrag.parse_file(os.path.join(repo, 'pyrtl', 'rtllib', 'prngs.py'))
    fns = {n.name: n for n in tree.body if isinstance(n, ast.FunctionDef)}
    for need in ('prng_lfsr', 'prng_xoroshiro128', 'csprng_trivium'):
        if need not in fns:
            raise Untranslatable('prngs.py: function %s not found' % need)
    out = ['(* GENERATED by py/genfrag_C18prng.py from pyrtl/rtllib/prngs.py (prng_lfsr, prng_xoroshiro128, '
           'csprng_trivium elaborated statement by statement) -- do not edit. *)',
           'From Coq Require Import ZArith List Bool.', 'From PyRTL Require Import Lib.PrngSpec Lib.PrngGenBase.',
           'Import ListNotations.', 'Open Scope Z_scope.', '']
    out.append(emit('lfsr', fns['prng_lfsr'], ['bitwidth'], 127, 'prng_lfsr'))
    out.append(emit('xo', fns['prng_xoroshiro128'], ['bitwidth'], 128, 'prng_xoroshiro128'))
    out.append(emit('tv', fns['csprng_trivium'], ['bitwidth', 'bits_per_cycle'], 160, 'csprng_trivium'))
    return '\n'.join(out)
